//! Stand-in for the `httpclient` crate (its source is not available in this sandbox): the API surface the
//! generated code uses, implemented as a *recording* client. Awaiting a request performs no I/O: it
//! prints one line `REQUEST <json>` on stdout, appends the same record to `recorded()`, and answers with the
//! JSON text of the environment variable `HTTPCLIENT_STANDIN_RESPONSE` (default `null`).
use serde::de::DeserializeOwned;
use serde::Serialize;
use std::future::{Future, IntoFuture};
use std::pin::Pin;
use std::sync::{Arc, Mutex};

pub trait Middleware: Send + Sync + std::fmt::Debug {
    /// a middleware may decorate the outgoing request record
    fn decorate(&self, _request: &mut Recorded) {}
}

#[derive(Debug, Clone, Default, serde::Serialize, PartialEq)]
pub struct Recorded {
    pub method: String,
    pub url: String,
    pub query: Vec<(String, String)>,
    pub headers: Vec<(String, String)>,
    pub cookies: Vec<(String, String)>,
    pub body: Option<serde_json::Value>,
    pub middlewares: Vec<String>,
}

static RECORDED: Mutex<Vec<Recorded>> = Mutex::new(Vec::new());
pub fn recorded() -> Vec<Recorded> { RECORDED.lock().unwrap().clone() }

#[derive(Debug, Clone, Default)]
pub struct Client {
    base_url: Option<String>,
    middlewares: Vec<Arc<dyn Middleware>>,
}

macro_rules! verbs {
    ($($name:ident $verb:literal),*) => { $(
        pub fn $name(&self, url: &str) -> RequestBuilder<'_> { self.request($verb, url) }
    )* };
}

impl Client {
    pub fn new() -> Self { Client::default() }
    pub fn base_url(mut self, base_url: &str) -> Self { self.base_url = Some(base_url.to_string()); self }
    pub fn with_middleware<M: Middleware + 'static>(mut self, m: M) -> Self { self.middlewares.push(Arc::new(m)); self }
    pub fn request(&self, method: &str, url: &str) -> RequestBuilder<'_> {
        let url = match &self.base_url {
            Some(b) if !url.contains("://") => format!("{}{}", b, url),
            _ => url.to_string(),
        };
        RequestBuilder { _client: self, record: Recorded { method: method.to_string(), url, ..Recorded::default() }, middlewares: self.middlewares.clone() }
    }
    verbs!(get "GET", put "PUT", post "POST", delete "DELETE", options "OPTIONS", head "HEAD", patch "PATCH", trace "TRACE");
}

#[derive(Debug, Clone)]
pub struct RequestBuilder<'a> {
    _client: &'a Client,
    record: Recorded,
    pub middlewares: Vec<Arc<dyn Middleware>>,
}

fn merge(a: &mut serde_json::Value, b: serde_json::Value) {
    match (a, b) {
        (serde_json::Value::Object(a), serde_json::Value::Object(b)) => { for (k, v) in b { merge(a.entry(k).or_insert(serde_json::Value::Null), v); } }
        (a, b) => *a = b,
    }
}

impl<'a> RequestBuilder<'a> {
    pub fn header(mut self, key: &str, value: &str) -> Self { self.record.headers.push((key.to_string(), value.to_string())); self }
    pub fn query(mut self, key: &str, value: &str) -> Self { self.record.query.push((key.to_string(), value.to_string())); self }
    pub fn cookie(mut self, key: &str, value: &str) -> Self { self.record.cookies.push((key.to_string(), value.to_string())); self }
    pub fn bearer_auth(self, token: &str) -> Self { self.header("Authorization", &format!("Bearer {}", token)) }
    pub fn basic_auth(self, token: &str) -> Self { self.header("Authorization", &format!("Basic {}", token)) }
    pub fn token_auth(self, token: &str) -> Self { self.header("Authorization", &format!("Token {}", token)) }
    /// object bodies are merged member by member, anything else replaces the body
    pub fn json<S: Serialize>(mut self, obj: S) -> Self {
        let v = serde_json::to_value(obj).expect("serialisable body");
        match &mut self.record.body { Some(b) => merge(b, v), None => self.record.body = Some(v) }
        self
    }
    pub fn set_query<S: Serialize>(mut self, obj: S) -> Self {
        if let Ok(serde_json::Value::Object(m)) = serde_json::to_value(obj) {
            for (k, v) in m {
                match v {
                    serde_json::Value::Null => {}
                    serde_json::Value::String(s) => self.record.query.push((k, s)),
                    serde_json::Value::Array(a) => for x in a { self.record.query.push((k.clone(), match x { serde_json::Value::String(s) => s, o => o.to_string() })); },
                    o => self.record.query.push((k, o.to_string())),
                }
            }
        }
        self
    }
}

#[derive(Debug)]
pub struct InMemoryResponse { pub status: u16, pub body: String }

#[derive(Debug)]
pub enum InMemoryError { Json(serde_json::Error), Protocol(String), Status(u16) }
impl std::fmt::Display for InMemoryError { fn fmt(&self, f: &mut std::fmt::Formatter<'_>) -> std::fmt::Result { write!(f, "{:?}", self) } }
impl std::error::Error for InMemoryError {}
impl From<serde_json::Error> for InMemoryError { fn from(e: serde_json::Error) -> Self { InMemoryError::Json(e) } }

pub type InMemoryResult<T> = Result<T, InMemoryError>;

pub trait InMemoryResponseExt {
    fn json<T: DeserializeOwned>(self) -> serde_json::Result<T>;
    fn text(self) -> String;
}
impl InMemoryResponseExt for InMemoryResponse {
    fn json<T: DeserializeOwned>(self) -> serde_json::Result<T> { serde_json::from_str(&self.body) }
    fn text(self) -> String { self.body }
}

impl<'a> IntoFuture for RequestBuilder<'a> {
    type Output = InMemoryResult<InMemoryResponse>;
    type IntoFuture = Pin<Box<dyn Future<Output = Self::Output> + Send + 'a>>;
    fn into_future(self) -> Self::IntoFuture {
        Box::pin(async move {
            let mut record = self.record;
            for m in &self.middlewares { record.middlewares.push(format!("{:?}", m)); m.decorate(&mut record); }
            println!("REQUEST {}", serde_json::to_string(&record).unwrap());
            RECORDED.lock().unwrap().push(record);
            let body = std::env::var("HTTPCLIENT_STANDIN_RESPONSE").unwrap_or_else(|_| "null".to_string());
            Ok(InMemoryResponse { status: 200, body })
        })
    }
}
