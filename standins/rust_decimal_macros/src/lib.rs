//! Stand-in for `rust_decimal_macros`: `dec!(<literal>)` (a declarative macro here, a procedural one in the real crate).
#[doc(hidden)]
pub use rust_decimal as __rust_decimal;
#[macro_export]
macro_rules! dec {
    ($($t:tt)*) => { $crate::__rust_decimal::Decimal::from_str_exact(&stringify!($($t)*).replace(' ', "")).expect("decimal literal") };
}
