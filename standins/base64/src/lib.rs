//! Stand-in for `base64` 0.2x: `Engine::encode` and `engine::general_purpose::STANDARD_NO_PAD`.
pub trait Engine {
    fn encode<T: AsRef<[u8]>>(&self, input: T) -> String;
}
pub mod engine {
    pub mod general_purpose {
        pub struct GeneralPurpose { pub(crate) pad: bool }
        pub const STANDARD_NO_PAD: GeneralPurpose = GeneralPurpose { pad: false };
        pub const STANDARD: GeneralPurpose = GeneralPurpose { pad: true };
    }
}
impl Engine for engine::general_purpose::GeneralPurpose {
    fn encode<T: AsRef<[u8]>>(&self, input: T) -> String {
        const A: &[u8; 64] = b"ABCDEFGHIJKLMNOPQRSTUVWXYZabcdefghijklmnopqrstuvwxyz0123456789+/";
        let b = input.as_ref();
        let mut out = String::new();
        for c in b.chunks(3) {
            let n = (c[0] as u32) << 16 | (*c.get(1).unwrap_or(&0) as u32) << 8 | *c.get(2).unwrap_or(&0) as u32;
            out.push(A[(n >> 18) as usize & 63] as char);
            out.push(A[(n >> 12) as usize & 63] as char);
            if c.len() > 1 { out.push(A[(n >> 6) as usize & 63] as char); } else if self.pad { out.push('='); }
            if c.len() > 2 { out.push(A[n as usize & 63] as char); } else if self.pad { out.push('='); }
        }
        out
    }
}
