#!/bin/bash
# seedtool.sh verify <ID> <X> [<Y>] : (stores as <ID>-<Y>, default Y = X) confirm an agent's seeded change in its scratch worktree (/tmp/seed/<ID>) and store it under /verif/seeded/<ID>-<X>/
# seedtool.sh run <ID>-<X> [props...] : apply the stored patch to /repo, run ./check for the property (or the given ones), undo
set -u
cmd=$1; shift
case $cmd in
verify)
  id=$1; x=$2; y=${3:-$2}; wt=/tmp/seed/$id; sd=$wt/seed/$x; mkdir -p /tmp/seed
  cd $wt || exit 2
  git checkout -q -- . ; 
  echo "== clean tree demo"; (bash $sd/run.sh >/tmp/seed/$id-$x-clean.log 2>&1); rc_clean=$?
  git apply $sd/patch.diff || { echo "patch does not apply"; exit 2; }
  echo "== patched demo"; (bash $sd/run.sh >/tmp/seed/$id-$x-patched.log 2>&1); rc_patched=$?
  echo "== patched test suite"; CARGO_NET_OFFLINE=true cargo test --workspace --no-fail-fast --offline >/tmp/seed/$id-$x-tests.log 2>&1
  fails=$(grep -E "^test [^ ]+ \.\.\. FAILED" /tmp/seed/$id-$x-tests.log | grep -v test_generate_example | wc -l)
  builderr=$(grep -c "^error" /tmp/seed/$id-$x-tests.log)
  git checkout -q -- .
  echo "clean rc=$rc_clean patched rc=$rc_patched other-test-failures=$fails build-errors=$builderr"
  if [ $rc_clean -eq 0 ] && [ $rc_patched -ne 0 ] && [ $fails -eq 0 ]; then
    dst=/verif/seeded/$id-$y; mkdir -p $dst; cp -r $sd/. $dst/; rm -rf $dst/out $dst/tmp* 2>/dev/null
    echo "stored in $dst"
  else echo "NOT CONFIRMED"; fi
  ;;
run)
  s=$1; shift; id=${s%%-*}
  props=${@:-$id}
  cd /repo && { git apply /verif/seeded/$s/patch.diff 2>/dev/null || git apply --3way /verif/seeded/$s/patch.diff >/dev/null 2>&1; } || { git reset -q; git checkout -q -- . ; echo "patch does not apply to /repo"; exit 2; }
  if git diff --quiet && git diff --cached --quiet; then echo "patch does not apply to /repo"; exit 2; fi
  if grep -rq "^<<<<<<<" $(git diff --name-only; git diff --cached --name-only) 2>/dev/null; then git reset -q; git checkout -q -- . ; echo "patch does not apply to /repo (conflict)"; exit 2; fi
  cd /verif
  for p in $props; do ./check $p --tier quick 2>&1 | grep -E "^(VIOLATION|OK|KNOWN)" | cut -c1-200; done
  git -C /repo reset -q; git -C /repo checkout -q -- .
  ;;
esac
